import importlib.util, os
_spec = importlib.util.spec_from_file_location("c11_tie", os.path.join(os.path.dirname(os.path.abspath(__file__)), "C11_tie.py"))
c11_tie = importlib.util.module_from_spec(_spec); _spec.loader.exec_module(c11_tie)
T = "GeomV.C12."
CFG = {
    "id": "C12",
    "lean_modules": ["GeomV.C12.Proofs", "GeomV.C12.ProofsExt", "GeomV.C12.Negations", "GeomV.C12.ProofsFloat",
                     "GeomV.C12.ProofsFloatTree", "GeomV.C12.ProofsRne", "GeomV.C12.NegationsFloat", "GeomV.C12.ProofsFloatKnn", "GeomV.C12.ProofsSort", "GeomV.C12.NegationsFused", "GeomV.C12.ProofsLit"] + c11_tie.C12_TIES,
    "lean_dirs": ["C11", "C12"],
    "exe": "geomv_c12",
    "go_cmd": "c12",
    "stages": ["go:gen", "go:impl", "lean:judge"],
    "theorems": [T + n for n in [
        "C12_minDist_spec", "C12_minMaxDist_spec", "C12_prune_sound_k1", "C12_nn", "C12_empty",
        "C12_insertNearest_topk", "C12_knn", "C12_knn_one", "C12_knn_all", "C12_stableOrder_ok", "C12_history", "C12_knn_empty",
        # phase 3 (ProofsExt): signed k; sort.Sort as any program of Swap calls; literal sortEntries/pruneEntries = branches
        "C12_knn_int", "C12_sort_contract", "C12_prune_lit", "C12_nn_sorter", "C12_knn_sorter",
        # negations with concrete witnesses (Negations.lean): the code before ef18d0f; necessity of the min <= max hypothesis
        "C12_old_prune_unsound", "C12_valid_needed",
        # float level (ProofsFloat.lean): for EVERY monotone rounding the repaired minMaxDist (ef912a0) keeps the MINMAXDIST
        # guarantee and MINDIST <= MINMAXDIST on the rounded values; pruneEntries never empties the branch list and never
        # loses an object of minimal rounded distance; the formula before the fix does not (witness under a 1/4-grid rounding)
        "fMinDist_mono", "fMinMaxDist_spec", "fMinDist_le_fMinMaxDist", "C12_prune_float", "C12_prune_float_keeps_nearest",
        "fMinDist_id", "fMinMaxDist_id", "C12_specTol_zero", "C12_old_minMaxDist_float_unsound",
        # wave 3 (ProofsFloatTree / ProofsRne): the whole-tree induction over ROUNDED distances for every monotone rounding
        # (gnnNode = nearestNeighbor with the two distance functions as parameters; with the exact ones it IS nnNode);
        # float64 roundTiesToEven (C02.rne on C17's bit-level roundPos) is such a rounding
        "gnnNode_exact", "gnnNode_spec", "C12_nn_float", "C12_nn_float_id", "C12_rne_rounding", "C12_nn_rne", "C12_overflow_known",
        # phase 4 (ProofsFloatKnn): the float-level k-NN theorem. gknnNode = nearestNeighbors with the two distance functions as
        # parameters (with the exact ones it IS knnNode); k != 1 needs nothing about them (top-k invariant over any key), k = 1 is
        # gnnNode on a one-slot array; for every monotone rounding / float64 rne: specKNNBy with the ROUNDED distance as key
        "gknnNode_exact", "gknnNode_spec", "gknn1_eq", "C12_knn_float", "C12_knn_float_anyfl", "C12_knn_float_id", "C12_knn_rne",
        "specKNN_eq_by",
        # phase 4 (ProofsSort): the Swap program of Go's insertionSort induces exactly the executable model's visiting order
        "C12_insertionSwaps_stable",
        # phase 4 (NegationsFused): geom.go compiled with fused multiply-add (Go spec; arm64, ppc64le) rounds minDist and minMaxDist
        # differently: kernel-evaluated witness under fl2 (MINMAXDIST 7 < MINDIST 8 of the same point box, both leaves pruned, nil panic)
        "C12_fused_unsound", "fused_id",
        # phase 4 (ProofsLit): the literal recursion of nearestNeighbor (sub-call RETURNS (subNearest, dist), the caller keeps it
        # iff dist < d) = the model nnNode that threads the running best
        "nnNode_improves", "C12_nnNode_lit", "C12_nn_lit",
        # the cancellation defect (S - d1*d1 + d2*d2) as a kernel-evaluated negation on a two-binade floating format
        "Rounding.fl2", "C12_old_cancellation_unsound",
        # T1: minDist / minMaxDist regenerated from index/rtree/geom.go of the tree under test = the model's
        "C12_tie_minDist", "C12_tie_minMaxDist", "C12_minDist_spec_src", "C12_minMaxDist_spec_src"]],
    "trusted_base": [
        "T1: harness/cmd/c11/extract.go regenerates lean/GeomV/C11/Gen.lean from index/rtree/geom.go of the tree under test on every "
        "run; C12/Ties prove Gen.minDist = minDist and Gen.minMaxDist = minMaxDist (math.MaxFloat64 = a parameter above the first "
        "candidate); control-skeleton tie of nearestNeighbor / NearestNeighbors / nearestNeighbors / insertNearest / sortEntries / "
        "pruneEntries and the Rtree struct fields against harness/cmd/c11/skeleton.expected",
        "Lean 4.33.0 kernel; axioms of every theorem printed by #print axioms must be within {propext, Classical.choice, Quot.sound}",
        "model lean/GeomV/C12/Model.lean (nearestNeighbor, nearestNeighbors, insertNearest, sortEntries as a visiting-order parameter, "
        "pruneEntries, minDist, minMaxDist) on the C11 tree model; tied to /repo/index/rtree by the correspondence run: the final tree "
        "of every history is compared exactly with the C11 model's tree (verif hook dump) and every answer with the model's answer "
        "(object identity when MaxChildren <= 11, where sort.Sort is a stable insertion sort; distances otherwise)",
        "float64 arithmetic of minDist/minMaxDist is exact on the generated inputs of the exact families (dyadic coordinates; every square, "
        "sum and difference representable: below 2^53 times the square of the unit), so the comparisons of the float squared distances are "
        "the model's Rat comparisons; since fix 2ded5fb the code compares the squared distances themselves (no math.Sqrt left in the search). "
        "On inputs where the arithmetic rounds, the whole search is covered by C12_nn_float for any monotone rounding, and float64 "
        "roundTiesToEven is proved to be one (C12_rne_rounding, on C02.rne / C17's bit-level roundPos); the Rat model saturates at 2^1024 and "
        "starts from +infinity where the code starts from math.MaxFloat64: faithful while every intermediate value stays below 2^1024 - 2^970 "
        "(beyond: known finding, the code panics / returns nil slots); the nn-round*/specOnly families are judged by the Spec up to 2^-40 relative. "
        "'fl after every -, *, +' (no fused multiply-add): guaranteed by the Go specification since fix 0fdcaaf converts every product explicitly (float64(d * d)); "
        "checked on every run by cross-compiling the harness for arm64 and inspecting the machine code of index/rtree.minDist/minMaxDist (FMA guard); go tool objdump is trusted for that",
        "sort.Sort acts on the entrySlice only through Len/Less/Swap with indices below Len (sort.Interface contract); then "
        "C12_sort_contract gives the permutation/pairing that the theorems need",
        "the C11 trusted base (tree model, hook, harness)",
    ],
    "assumptions": [
        "the box of every STORED object contains a point (min <= max); used only where MINMAXDIST pruning runs (NearestNeighbor, k = 1)",
        "the visiting order is a permutation of the entries (any tie-breaking) — proved for every program of in-range Swap calls (C12_sort_contract)",
        "trees are well-formed in the sense of C11 (established for every reachable tree by C11_reachable)",
    ],
    "rule": "C11-style histories (grow / region delete / capacity-boundary churn; (min,max) in {(2,4),(2,5),(3,6),(3,7),(4,8),(25,50)}; "
            "pointer, geom.Point and *geom.Bounds objects; coincident and degenerate boxes; duplicates inserted and deleted once; "
            "dyadic coordinate units 1, 1/2, 1/8, 1/64, 1/1024, 16 and a jittered lattice in the unit square, so that distances < 1 occur; "
            "non-dyadic clouds on the k/10, k/7, k/3 grids with shared coordinates (zero-width / zero-height node boxes, query outside the slab) and "
            "clouds with one axis at 2^52+{0..3} (midpoint of a node box not a float64) — Spec only, tolerance 2^-40 (class specOnly); "
            "ring (all objects on a circle around the query, 1-3 inner objects near the axes; MaxChildren 9..70, 9+ leaves below one node: every branch is "
            "kept by MINMAXDIST pruning and the nearest object sits below a LATE branch in MINDIST order); huge (grid {0..span}*2^e, e = 500/505/508: squared "
            "distances exact in [2^1000, 2^1024)); corpus overflow (coordinates 2^600 apart: known finding); "
            "thin (nn-round4/5: cluster on tenths plus objects 1e8..2^40 away along one axis - node boxes elongated by 2^27 and more, Spec only); "
            "far clusters: squared distances in [2^51,2^53) that differ by 1..4, closer than the float64 grid of their square roots, at scales 2^-40..2^60) followed by 12-14 queries each: points at box "
            "centres (half-integers), corners, on edges, just outside, far outside, grid points prone to ties, random; k in "
            "{NearestNeighbor, 1, 2, 3, size-1, size, size+3, random in 1..size+3; k = 0 and negative k as correspondence only}. One case = one history with all its queries; class = shape-kind-params-height",
    "timeout": {"quick": 900, "thorough": 3000},
    "explanation": "SPEC verdicts: Spec.specNN / Spec.specKNN evaluated on the implementation's answer against the multiset of objects "
                   "stored according to the history semantics (ties by distance, not identity).",
}


FMA_GUARD = True    # switched on together with the fix that converts every product explicitly (float64(d * d))


def fma_guard(check):
    """The float-level theorems (C12_nn_float, C12_knn_float, fMinDist_le_fMinMaxDist) model `fl` after EVERY -, *, +.  The Go
    specification lets a compiler fuse x*y + z into one FMA unless the product is converted explicitly; amd64 (where the
    cases run) does not fuse, arm64 does.  Cross-compile the harness for arm64 against the tree under test and look at the
    machine code of index/rtree.minDist / minMaxDist: a fused multiply-add there breaks the tie (C12_fused_unsound)."""
    import subprocess, shutil
    import vcheck
    out = os.path.join(check.rundir, "c12.arm64")
    args = ["go", "build", "-tags", "verif", "-o", out]
    if vcheck.REPO != "/repo":
        mod = open(os.path.join(vcheck.HARNESS, "go.mod")).read().replace("=> /repo", "=> " + vcheck.REPO)
        mf = os.path.join(check.rundir, "alt-arm64.mod")
        open(mf, "w").write(mod)
        shutil.copy(os.path.join(vcheck.HARNESS, "go.sum"), os.path.join(check.rundir, "alt-arm64.sum"))
        args += ["-modfile", mf]
    args.append("./cmd/c12")
    env = dict(vcheck.GOENV, GOARCH="arm64", GOOS="linux")
    with vcheck.Lock("go"):
        p = subprocess.run(args, cwd=vcheck.HARNESS, env=env, stdout=subprocess.PIPE, stderr=subprocess.STDOUT, text=True)
    if p.returncode != 0:
        check.broken.append("FMA guard: the harness does not cross-compile for arm64: " + p.stdout.strip()[-300:])
        return
    d = subprocess.run(["go", "tool", "objdump", "-s", r"index/rtree\.(minDist|minMaxDist)$", out], env=vcheck.GOENV,
                       stdout=subprocess.PIPE, stderr=subprocess.STDOUT, text=True)
    lines = d.stdout.splitlines()
    if d.returncode != 0 or not any("FMULD" in l for l in lines):
        check.broken.append("FMA guard: no arm64 code found for index/rtree.minDist/minMaxDist: " + d.stdout.strip()[-200:])
        return
    fused = [l.split("\t")[0].strip() for l in lines if any(m in l for m in ("FMADDD", "FMSUBD", "FNMADDD", "FNMSUBD"))]
    if fused:
        check.broken.append("FMA guard: the arm64 code of index/rtree minDist/minMaxDist contains %d fused multiply-add(s) (%s): "
                            "a product is added without an explicit float64(...) conversion, so minDist and minMaxDist round "
                            "differently there (C12_fused_unsound: pruneEntries can drop every branch)" % (len(fused), ", ".join(sorted(set(fused)))[:200]))


def pregen(check):
    c11_tie.pregen(check, c11_tie.C12_TIES)
    if FMA_GUARD:
        fma_guard(check)


CFG["pregen"] = pregen
