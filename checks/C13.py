T = "GeomV.C13."
CFG = {
    "id": "C13",
    "lean_modules": ["GeomV.C13.Proofs"],
    "exe": "geomv_c13",
    "go_cmd": "c13",
    "stages": ["go:gen", "go:impl", "lean:judge"],
    "theorems": [T + n for n in [
        "C13_terminates", "C13_terminates_methods", "C13_subsequence", "C13_endpoints", "C13_tolerance", "C13_tolerance_meaning",
        "C13_members_independent", "C13_input_unchanged", "C13_simple", "C13_segsMeet_meaning", "C13_simple_partial", "C13_judge_embeds_sound",
    ]],
    "trusted_base": [
        "Lean 4.33.0 kernel; axioms of every theorem printed by #print axioms must be within {propext, Classical.choice, Quot.sound}",
        "model lean/GeomV/C13/Model.lean (exact Rat arithmetic) is tied to /repo/simplify.go + /repo/intersection.go by the correspondence run: "
        "outputs are sub-lists of the input and are compared exactly on every generated case",
        "IEEE-754 rounding is modelled, not verified: on the generator's integer grids every product in findIntersection is exact and every "
        "distance test the model makes is re-evaluated with a bit-exact float replica of distPointToSegment; cases where float and exact "
        "disagree (or |d^2-tol^2| <= 1e-9 tol^2) are classed `-neartie` and not compared",
        "harness/cmd/c13 + lean driver + lib/vcheck.py transport inputs faithfully",
    ],
    "assumptions": [
        "finite coordinates (no NaN/Inf); tolerance finite",
        "simplicity preservation is claimed for open line strings that are simple and in general position (vertices pairwise distinct, no three collinear)",
    ],
    "rule": "fixed corpus (lengths 0,1,2,3 for every type and tolerance, TestSimplify's curves, closing-segment witness, collinear/duplicate/"
            "negative-tolerance cases) + generated integer-grid random walks, self-avoiding lattice walks, simple lines in general position "
            "(rejection-sampled with exact integer predicates), spirals, combs, star-shaped rings with holes, multi-geometries with empty and "
            "short members; smooth long runs (arcs, parabolas, flat waves: one output segment replaces 65-500 vertices), size thresholds (63..130, 1023..2049 vertices; 64/65/128/129 members), the same shapes at scales 2^-30..2^30; every input laid out in one flat buffer with spare capacity, first answer re-read after a second call on the operand changed in place; lengths 0..3000; tol from {0,1/4,1/2,1.5,3.5,1e6} and a few others. distinct = distinct input line; non-trivial = "
            "class is not skipped/neartie",
    "trivial_class": r"^(skipped.*|.*-neartie)$",
    "timeout": {"quick": 900, "thorough": 3000},
    "impl_mem_gb": 24,
}
