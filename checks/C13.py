T = "GeomV.C13."
CFG = {
    "id": "C13",
    "lean_modules": ["GeomV.C13.Proofs", "GeomV.C13.Ties", "GeomV.C13.ProofsMeet", "GeomV.C13.ProofsRing", "GeomV.C13.ProofsTie", "GeomV.C13.ProofsBudget", "GeomV.C13.ProofsSqrt"],
    "exe": "geomv_c13",
    "go_cmd": "c13",
    "stages": ["go:gen", "go:impl", "lean:judge"],
    "theorems": [T + n for n in [
        "C13_terminates", "C13_terminates_methods", "C13_subsequence", "C13_endpoints", "C13_tolerance", "C13_tolerance_meaning",
        "C13_members_independent", "C13_input_unchanged", "C13_simple", "C13_segsMeet_meaning", "C13_simple_partial", "C13_judge_embeds_sound",
        "C13_tie_pointSubtract", "C13_tie_dot", "C13_tie_norm", "C13_tie_d", "C13_tie_lengthToOrigin",
        "C13_tie_distPointToSegment", "C13_tie_findIntersection2", "C13_tie_findIntersection2_nan", "C13_tie_findIntersection",
        "C13_gen_far_spec", "C13_gen_count_zero_iff_not_meet",
        "C13_segsMeet_meaning_full", "C13_findIntersection_meets", "C13_gen_findIntersection_meets",
        "C13_findIntersection_collinear", "C13_findIntersection_collinear_bias",
        "C13_ring_closing_guard_vacuous", "C13_ring_simplicity_not_preserved",
        "C13_simple_collinear_ordered", "C13_genPos_imp_colOrdered",
        "C13_ring_open_chain_simple", "C13_polygon_open_chains_simple", "C13_neartie_band_sound",
        "C13_budget_from_rounding", "C13_float_test_exact_outside_band", "C13_rne_std_model", "C13_float_test_exact_rne",
        "C13_tie_rneM", "C13_sqrtHyp_iff", "C13_sqrtHyp_of_faithful", "C13_float_test_exact_ieee",
    ]],
    "trusted_base": [
        "Lean 4.33.0 kernel; axioms of every theorem printed by #print axioms must be within {propext, Classical.choice, Quot.sound}",
        "model lean/GeomV/C13/Model.lean (exact Rat arithmetic) is tied to /repo/simplify.go + /repo/intersection.go by the correspondence run: "
        "outputs are sub-lists of the input and are compared exactly on every generated case",
        "IEEE-754 rounding is modelled, not verified: on the generator's integer grids every product in findIntersection is exact and every "
        "distance test the model makes is re-evaluated with a bit-exact float replica of distPointToSegment; cases where float and exact "
        "disagree (or |d^2-tol^2| <= 1e-9 tol^2) are classed `-neartie` and not compared; outside the band |df-tol| <= 1e-6 tol the float "
        "decision equals the model's when the rounding error of the squared distance is within (eps/2)(d^2+tol^2) (C13_neartie_band_sound); "
        "that budget is measured for every replayed distance test of curves up to 64 vertices (a test outside it makes the case a near-tie); "
        "on the integer grid with tol >= 1/4 it is PROVED from the IEEE rounding (C13_float_test_exact_rne / _ieee, C02.rne = bit-level roundTiesToEven of C17): "
        "what stays trusted there is that Go's + - * / round to nearest even operation by operation (no fused multiply-add; amd64) and that "
        "math.Sqrt is faithfully rounded (C13_sqrtHyp_of_faithful: then df^2 is within (1 +- 2^-52)^2 of its argument) - that consequence is checked against the hardware float for every replayed test of curves up to 20 vertices",
        "T1: harness/cmd/c13/extract.go (go/ast + go/constant, ~550 lines) regenerates lean/GeomV/C13/Gen.lean (pointSubtract, dot, norm, d, "
        "distPointToSegment, lengthToOrigin, findIntersection2, findIntersection[first result]) from the tree under test on every run; "
        "Ties.lean proves each equal to the model function (lengths through their squares); the symbolic treatment of math.Sqrt "
        "(GenLib.lean: Len, Surd, OverLen with exact sign-and-square comparisons and IEEE 0/0, a/0) and the dead-variable rule of the "
        "translator are part of the trusted base and are exercised by the correspondence run; the loop nest (simplifyCurve, "
        "segMakesNotSimple, the four Simplify methods) is tied by a canonical token skeleton compared with harness/cmd/c13/skeleton.expected.txt",
        "harness/cmd/c13 + lean driver + lib/vcheck.py transport inputs faithfully",
    ],
    "assumptions": [
        "finite coordinates (no NaN/Inf); tolerance finite; coordinate differences zero or within (2^-500, 2^500) (beyond that range distPointToSegment rescales, and findIntersection overflows; the T1 tie of distPointToSegment is stated in range)",
        "simplicity preservation is claimed (property) for open line strings that are simple and in general position (vertices pairwise distinct, no three collinear); "
        "proved and judged also on the larger class Spec.ColOrdered (vertices distinct, collinear triples in index order along their line); for rings only the open chain (ring minus its closing vertex) is proved to stay simple, C13_ring_open_chain_simple; the closing chord is never checked by the code (kernel-checked counter-example), and a closed line string is not simple in the property's sense",
    ],
    "rule": "fixed corpus (lengths 0,1,2,3 for every type and tolerance, TestSimplify's curves, closing-segment witness, collinear/duplicate/"
            "negative-tolerance cases) + generated integer-grid random walks, self-avoiding lattice walks, simple lines in general position "
            "(rejection-sampled with exact integer predicates), spirals, combs, star-shaped rings with holes, multi-geometries with empty and "
            "short members; smooth long runs (arcs, parabolas, flat waves: one output segment replaces 65-500 vertices), size thresholds (63..130, 1023..2049 vertices; 64/65/128/129 members), the same shapes at scales 2^-30..2^30; every input laid out in one flat buffer with spare capacity, first answer re-read after a second call on the operand changed in place; shallow pockets on a ladder of small absolute scales (2^-8..2^-40, 1e-3..1e-7, with/without a lon/lat offset); densified simple lines (collinear runs in order); grid shapes at 2^±520..2^±1000 and subnormal scale (class far: rescale branch of distPointToSegment, judged with the real tolerance); pocket with a 33-125 vertex detour between bump and re-entry (class detour, general position judged up to 140 vertices); concurrent callers (class conc: 8 identical + 8 unrelated goroutines, multi-geometries with 32..80 members); graded near-ties tol(1 +- 2^-k), k = 12..30, in the three branches of distPointToSegment under 8 symmetries and 3 dyadic scales (class ladder); rings/polygons/lines of every input are windows of one table with spare capacity and sentinel entries (headers compared before/after); lengths 0..3000; tol from {0,1/4,1/2,1.5,3.5,1e6} and a few others. distinct = distinct input line; non-trivial = "
            "class is not skipped/neartie",
    "trivial_class": r"^(skipped.*|.*-neartie|.*-outofrange)$",
    "timeout": {"quick": 900, "thorough": 3000},
    "impl_mem_gb": 24,
}


def pregen(check):
    """T1: regenerate Gen.lean from the Go source of the tree under test (written only when it changed) and
    compare the control skeleton of the loop functions with the committed one"""
    import os, subprocess
    import vcheck
    ok, gobin, out = vcheck.go_build("c13", check.rundir)
    if not ok:
        return  # reported as a broken tie by the harness build of the main flow
    p = subprocess.run([gobin, "extract", "--repo", vcheck.REPO], stdout=subprocess.PIPE, stderr=subprocess.PIPE, text=True)
    if p.returncode != 0:
        check.broken.append("T1 tie: simplify.go/intersection.go left the translatable subset: " + p.stderr.strip()[-300:])
    else:
        gen = os.path.join(vcheck.LEAN, "GeomV", "C13", "Gen.lean")
        old = open(gen).read() if os.path.exists(gen) else ""
        if old != p.stdout:
            with open(gen + ".tmp", "w") as f:
                f.write(p.stdout)
            os.replace(gen + ".tmp", gen)
    q = subprocess.run([gobin, "skeleton", "--repo", vcheck.REPO], stdout=subprocess.PIPE, stderr=subprocess.PIPE, text=True)
    if q.returncode != 0:
        check.broken.append("T1 skeleton: " + q.stderr.strip()[-300:])
        return
    want = open(os.path.join(vcheck.HARNESS, "cmd", "c13", "skeleton.expected.txt")).read().split("\n")
    got = q.stdout.split("\n")
    fn = "?"
    for i in range(max(len(want), len(got))):
        w = want[i] if i < len(want) else "<end>"
        g = got[i] if i < len(got) else "<end>"
        if g.startswith("== "):
            fn = g[3:]
        if w != g:
            check.broken.append("T1 skeleton: simplify.go %s differs from the modelled control structure at skeleton line %d: "
                                "source has `%s`, model was written for `%s`" % (fn, i + 1, g.strip(), w.strip()))
            break


CFG["pregen"] = pregen


NEARTIE_BOUND = 0.02


def post(check, pairs, stats):
    """(1) bound on the float near-tie class: cases in it are judged by the Spec with slack but NOT compared with the
    model, so the class must stay small (it is empty on the unchanged tree: integer grids and dyadic tolerances);
    (2) name the tie lemma(s) that no longer prove when lake build of Ties.lean failed"""
    import os, re
    import vcheck
    cl = stats.get("classes", {}) or {}
    tot = sum(cl.values())
    nt = sum(v for k, v in cl.items() if k.endswith("-neartie"))
    if tot and nt > NEARTIE_BOUND * tot:
        check.broken.append("near-tie class holds %d of %d cases (bound %.0f%%): too many cases escape the model comparison"
                            % (nt, tot, 100 * NEARTIE_BOUND))
    log = getattr(check, "lake_log", "")
    if "Ties.lean" not in log:
        return
    src = open(os.path.join(vcheck.LEAN, "GeomV", "C13", "Ties.lean")).read().split("\n")
    names = []
    for m in re.finditer(r"error: \S*Ties\.lean:(\d+):\d+", log):
        ln = int(m.group(1))
        for k in range(min(ln, len(src)) - 1, -1, -1):
            t = re.match(r"\s*theorem\s+(\S+)", src[k])
            if t:
                if t.group(1) not in names:
                    names.append(t.group(1))
                break
    if names:
        check.broken.append("T1 tie: the regenerated definitions no longer satisfy: " + ", ".join(names))


CFG["post"] = post
